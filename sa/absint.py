"""E5 - evaluation of loop-free decision procedures over the finite quotient of
their input space.

The functions handled here only *compare* their inputs with constants (or test
them for truth), so the constants they compare against, plus one value that is
none of them, form an exact partition of the input space.  The evaluator walks
the function's syntax tree for every representative input; it supports a small,
closed set of node kinds and raises AnalysisError for anything else, so a
refactoring can never turn into a wrong verdict.  The library is never
imported or called.
"""
from __future__ import annotations

import ast

from .core import AnalysisError, text


class _Return(Exception):
    def __init__(self, value):
        self.value = value


class Raised:
    """Result of a run that ends in a (modelled) Python exception."""

    def __init__(self, kind):
        self.kind = kind

    def __eq__(self, o):
        return isinstance(o, Raised) and o.kind == self.kind

    def __hash__(self):
        return hash(('raised', self.kind))

    def __repr__(self):
        return f'raises {self.kind}'


class Opaque:
    """A value the evaluator does not model (an unknown call result)."""

    def __init__(self, desc):
        self.desc = desc

    def __repr__(self):
        return f'<{self.desc}>'


STR_METHODS = {'find', 'startswith', 'endswith', 'replace', 'lower', 'upper', 'strip', 'split', 'index', 'get', 'items', 'keys', 'values', 'decode', 'encode', 'count', 'join', 'lstrip', 'rstrip', 'isdigit'}


class Evaluator:
    def __init__(self, fn, intrinsics=None, attr_ok=None, model_types=()):
        self.fn = fn
        self.intrinsics = intrinsics or {}
        self.model_types = tuple(model_types)
        self.trace = []
        self.steps = 0

    def run(_self, **args):
        self = _self
        env = dict(args)
        self.trace = []
        self.steps = 0
        try:
            self.block(self.fn.body, env)
        except _Return as r:
            return r.value
        except _Raise as e:
            return Raised(e.kind)
        return None

    def block(self, stmts, env):
        for st in stmts:
            self.stmt(st, env)

    def stmt(self, st, env):
        self.steps += 1
        if self.steps > 200000:
            raise AnalysisError('evaluation does not terminate')
        if isinstance(st, ast.Expr):
            if isinstance(st.value, ast.Constant):
                return
            self.expr(st.value, env)
            return
        if isinstance(st, ast.Assign):
            v = self.expr(st.value, env)
            for t in st.targets:
                self.assign(t, v, env)
            return
        if isinstance(st, ast.AugAssign):
            cur = self.expr(ast.Name(id=st.target.id, ctx=ast.Load()), env) if isinstance(st.target, ast.Name) else self.expr(st.target, env)
            v = self.binop(st.op, cur, self.expr(st.value, env))
            self.assign(st.target, v, env)
            return
        if isinstance(st, ast.If):
            c = self.truth(self.expr(st.test, env))
            self.trace.append((st.lineno, bool(c)))
            self.block(st.body if c else st.orelse, env)
            return
        if isinstance(st, ast.Return):
            raise _Return(self.expr(st.value, env) if st.value is not None else None)
        if isinstance(st, ast.Pass):
            return
        if isinstance(st, ast.For):
            it = self.expr(st.iter, env)
            if isinstance(it, Opaque):
                raise AnalysisError(f'loop over an unmodelled value in `{text(st)[:50]}`')
            broke = False
            for v in list(it):
                self.assign(st.target, v, env)
                try:
                    self.block(st.body, env)
                except _Break:
                    broke = True
                    break
                except _Continue:
                    continue
            if not broke:
                self.block(st.orelse, env)
            return
        if isinstance(st, ast.Break):
            raise _Break()
        if isinstance(st, ast.Continue):
            raise _Continue()
        if isinstance(st, ast.Try):
            # only the shape `try: X except E: Y` with intrinsic-controlled raising
            try:
                self.block(st.body, env)
            except _Raise as e:
                for h in st.handlers:
                    if h.type is None or e.kind in text(h.type):
                        self.block(h.body, env)
                        break
                else:
                    raise
            else:
                self.block(st.orelse, env)
            self.block(st.finalbody, env)
            return
        raise AnalysisError(f'unsupported statement in decision procedure: {type(st).__name__}: {text(st)[:60]}')

    def assign(self, t, v, env):
        if isinstance(t, ast.Name):
            env[t.id] = v
        elif isinstance(t, (ast.Tuple, ast.List)):
            vals = list(v)
            if len(vals) != len(t.elts):
                raise _Raise('ValueError')
            for a, b in zip(t.elts, vals):
                self.assign(a, b, env)
        elif isinstance(t, ast.Attribute) and isinstance(t.value, ast.Name) and isinstance(env.get(t.value.id), Record):
            setattr(env[t.value.id], t.attr, v)
        else:
            raise AnalysisError(f'unsupported assignment target {text(t)}')

    def truth(self, v):
        if isinstance(v, Opaque):
            raise AnalysisError(f'branch on an unmodelled value {v}')
        return bool(v)

    def binop(self, op, a, b):
        if isinstance(a, Opaque) or isinstance(b, Opaque):
            return Opaque('arith')
        if isinstance(op, ast.BitAnd):
            return a & b
        if isinstance(op, ast.BitOr):
            return a | b
        if isinstance(op, ast.Sub):
            return a - b
        if isinstance(op, ast.Add):
            return a + b
        if isinstance(op, ast.Mod):
            return Opaque('format')
        raise AnalysisError(f'unsupported operator {type(op).__name__}')

    def expr(self, e, env):
        if isinstance(e, ast.Constant):
            return e.value
        if isinstance(e, ast.Name):
            if e.id in env:
                return env[e.id]
            if e.id in self.intrinsics:
                return self.intrinsics[e.id]
            if e.id in ('None', 'True', 'False'):
                return {'None': None, 'True': True, 'False': False}[e.id]
            if e.id in ('ord', 'chr', 'str', 'int', 'len'):
                return {'ord': ord, 'chr': chr, 'str': str, 'int': int, 'len': len}[e.id]
            raise AnalysisError(f'unknown name {e.id} in decision procedure')
        if isinstance(e, ast.Tuple):
            return tuple(self.expr(x, env) for x in e.elts)
        if isinstance(e, ast.List):
            return [self.expr(x, env) for x in e.elts]
        if isinstance(e, ast.Dict):
            return {self.expr(k, env): self.expr(v, env) for k, v in zip(e.keys, e.values)}
        if isinstance(e, ast.IfExp):
            return self.expr(e.body if self.truth(self.expr(e.test, env)) else e.orelse, env)
        if isinstance(e, (ast.GeneratorExp, ast.ListComp, ast.SetComp)):
            out = []

            def gen(i, env2):
                if i == len(e.generators):
                    out.append(self.expr(e.elt, env2))
                    return
                g = e.generators[i]
                for v in list(self.expr(g.iter, env2)):
                    env3 = dict(env2)
                    self.assign(g.target, v, env3)
                    if all(self.truth(self.expr(c, env3)) for c in g.ifs):
                        gen(i + 1, env3)

            gen(0, env)
            return set(out) if isinstance(e, ast.SetComp) else out
        if isinstance(e, ast.DictComp):
            out = {}
            g = e.generators[0]
            for v in list(self.expr(g.iter, env)):
                env3 = dict(env)
                self.assign(g.target, v, env3)
                if all(self.truth(self.expr(c, env3)) for c in g.ifs):
                    out[self.expr(e.key, env3)] = self.expr(e.value, env3)
            return out
        if isinstance(e, ast.JoinedStr):
            parts = []
            for v in e.values:
                if isinstance(v, ast.Constant):
                    parts.append(str(v.value))
                elif isinstance(v, ast.FormattedValue) and v.format_spec is None and v.conversion == -1:
                    x = self.expr(v.value, env)
                    if isinstance(x, Opaque):
                        return Opaque('f-string')
                    parts.append(str(x))
                else:
                    return Opaque('f-string')
            return ''.join(parts)
        if isinstance(e, ast.UnaryOp):
            v = self.expr(e.operand, env)
            if isinstance(e.op, ast.Not):
                return not self.truth(v)
            if isinstance(e.op, ast.Invert):
                return ~v
            if isinstance(e.op, ast.USub):
                return -v
            raise AnalysisError('unsupported unary operator')
        if isinstance(e, ast.BinOp):
            return self.binop(e.op, self.expr(e.left, env), self.expr(e.right, env))
        if isinstance(e, ast.BoolOp):
            if isinstance(e.op, ast.And):
                v = True
                for x in e.values:
                    v = self.expr(x, env)
                    if not self.truth(v):
                        return v
                return v
            v = False
            for x in e.values:
                v = self.expr(x, env)
                if self.truth(v):
                    return v
            return v
        if isinstance(e, ast.Compare):
            left = self.expr(e.left, env)
            for op, r in zip(e.ops, e.comparators):
                right = self.expr(r, env)
                if isinstance(left, Opaque) or isinstance(right, Opaque):
                    raise AnalysisError(f'comparison with an unmodelled value in `{text(e)}`')
                if isinstance(op, ast.Eq):
                    ok = left == right
                elif isinstance(op, ast.NotEq):
                    ok = left != right
                elif isinstance(op, ast.GtE):
                    ok = left >= right
                elif isinstance(op, ast.Gt):
                    ok = left > right
                elif isinstance(op, ast.LtE):
                    ok = left <= right
                elif isinstance(op, ast.Lt):
                    ok = left < right
                elif isinstance(op, ast.In):
                    ok = left in right
                elif isinstance(op, ast.NotIn):
                    ok = left not in right
                elif isinstance(op, ast.Is):
                    ok = left is right
                elif isinstance(op, ast.IsNot):
                    ok = left is not right
                else:
                    raise AnalysisError('unsupported comparison')
                if not ok:
                    return False
                left = right
            return True
        if isinstance(e, ast.Subscript):
            v = self.expr(e.value, env)
            if isinstance(v, Opaque):
                return Opaque('item')
            if isinstance(e.slice, ast.Slice):
                lo = self.expr(e.slice.lower, env) if e.slice.lower else None
                hi = self.expr(e.slice.upper, env) if e.slice.upper else None
                return v[lo:hi]
            try:
                return v[self.expr(e.slice, env)]
            except (IndexError, KeyError) as ex:
                raise _Raise(type(ex).__name__)
        if isinstance(e, ast.Attribute):
            v = self.expr(e.value, env)
            if isinstance(v, Record):
                return getattr(v, e.attr)
            raise AnalysisError(f'unsupported attribute access {text(e)}')
        if isinstance(e, ast.Call):
            try:
                return self._call(e, env)
            except (TypeError, ValueError, IndexError, KeyError, AttributeError, UnicodeError) as ex:
                # the modelled operation itself raises, as it would at run time
                raise _Raise(type(ex).__name__)
        raise AnalysisError(f'unsupported expression in decision procedure: {text(e)[:60]}')

    def _call(self, e, env):
        if True:
            f = e.func
            if isinstance(f, ast.Name) and f.id == 'isinstance' and len(e.args) == 2:
                v = self.expr(e.args[0], env)
                tn = text(e.args[1])
                kinds = {'str': str, 'bytes': bytes, 'tuple': tuple, 'list': list, 'dict': dict, 'int': int}
                if tn not in kinds:
                    raise AnalysisError(f'isinstance test against unmodelled type {tn}')
                return isinstance(v, kinds[tn])
            args = [self.expr(a, env) for a in e.args]
            kwargs = {k.arg: self.expr(k.value, env) for k in e.keywords}
            if isinstance(f, ast.Name) and f.id in env and callable(env[f.id]):
                return env[f.id](*args, **kwargs)
            if not isinstance(f, (ast.Name, ast.Attribute)):
                fv = self.expr(f, env)
                if callable(fv):
                    return fv(*args, **kwargs)
                raise AnalysisError(f'call of unmodelled value {text(f)}')
            if isinstance(f, ast.Name):
                if f.id == 'len':
                    return len(args[0])
                if f.id == 'isinstance':
                    tn = text(e.args[1])
                    return {'str': isinstance(args[0], str), 'bytes': isinstance(args[0], bytes)}.get(tn, False)
                if f.id in ('str', 'bool', 'int', 'ord', 'chr', 'tuple', 'list', 'set', 'dict', 'min', 'max', 'any', 'all', 'sorted', 'reversed', 'enumerate', 'zip', 'abs'):
                    r = {'str': str, 'bool': bool, 'int': int, 'ord': ord, 'chr': chr, 'tuple': tuple, 'list': list, 'set': set, 'dict': dict, 'min': min, 'max': max, 'any': any, 'all': all, 'sorted': sorted, 'reversed': reversed, 'enumerate': enumerate, 'zip': zip, 'abs': abs}[f.id](*args, **kwargs)
                    return list(r) if f.id in ('reversed', 'enumerate', 'zip') else r
                if f.id == 'map' and len(args) == 2 and callable(args[0]):
                    return [args[0](x) for x in args[1]]
                if f.id in self.intrinsics:
                    return self.intrinsics[f.id](*args, **kwargs)
                raise AnalysisError(f'call of unmodelled function {f.id}')
            if isinstance(f, ast.Attribute):
                d = text(f)
                if d in self.intrinsics:
                    return self.intrinsics[d](*args, **kwargs)
                recv = self.expr(f.value, env)
                if isinstance(recv, (str, bytes, dict, list, tuple)) and f.attr in STR_METHODS:
                    r = getattr(recv, f.attr)(*args)
                    return list(r) if f.attr in ('items', 'keys', 'values') else r
                if isinstance(recv, Record) and callable(getattr(recv, f.attr, None)):
                    return getattr(recv, f.attr)(*args, **kwargs)
                if self.model_types and isinstance(recv, self.model_types) and callable(getattr(recv, f.attr, None)):
                    return getattr(recv, f.attr)(*args, **kwargs)
                if isinstance(recv, (str, bytes, int, float, tuple, list, dict, type(None))) and not hasattr(recv, f.attr):
                    raise _Raise('AttributeError')
                raise AnalysisError(f'call of unmodelled method {d}')
        raise AnalysisError(f'unsupported expression in decision procedure: {text(e)[:60]}')


class _Break(Exception):
    pass


class _Continue(Exception):
    pass


class _Raise(Exception):
    def __init__(self, kind):
        self.kind = kind


class Record:
    """A mutable record object (e.g. EncodingInfo) for the evaluator."""

    def __init__(self, **kw):
        self.__dict__.update(kw)


def compared_constants(fn, kinds=(int, str, bytes)):
    """Constants the function compares something with (==, !=, in)."""
    out = set()
    for n in ast.walk(fn):
        if isinstance(n, ast.Compare):
            for x in [n.left] + n.comparators:
                for c in ast.walk(x):
                    if isinstance(c, ast.Constant) and isinstance(c.value, kinds):
                        out.add(c.value)
    return out
