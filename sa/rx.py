"""E4 - regular-expression analysis on ``re._parser`` syntax trees.

Everything here works on pattern *text* taken from the repository's source; no
pattern is ever applied to an input.  Character sets are exact interval lists
over 0..0x10FFFF (category escapes are expanded from the interpreter's Unicode
database, once, on demand).
"""
from __future__ import annotations

import re
import sys
from functools import lru_cache

try:  # 3.11+
    import re._parser as sre_parse
    import re._constants as sre_c
except ImportError:  # pragma: no cover
    import sre_parse
    import sre_constants as sre_c

from .core import AnalysisError

MAXCP = 0x10FFFF

# ---------------------------------------------------------------------------
# character sets


def _norm(ranges):
    out = []
    for lo, hi in sorted(ranges):
        if lo > hi:
            continue
        if out and lo <= out[-1][1] + 1:
            if hi > out[-1][1]:
                out[-1] = (out[-1][0], hi)
        else:
            out.append((lo, hi))
    return tuple(out)


class CS:
    """Immutable set of code points as sorted disjoint intervals."""

    __slots__ = ('r', '_h')

    def __init__(self, ranges=()):
        self.r = _norm(ranges)
        self._h = hash(self.r)

    def __hash__(self):
        return self._h

    def __eq__(self, o):
        return isinstance(o, CS) and self.r == o.r

    def __bool__(self):
        return bool(self.r)

    def __or__(self, o):
        return CS(self.r + o.r)

    def negate(self):
        out = []
        prev = 0
        for lo, hi in self.r:
            if lo > prev:
                out.append((prev, lo - 1))
            prev = hi + 1
        if prev <= MAXCP:
            out.append((prev, MAXCP))
        return CS(out)

    def __and__(self, o):
        return (self.negate() | o.negate()).negate()

    def __sub__(self, o):
        return self & o.negate()

    def __contains__(self, cp):
        if isinstance(cp, str):
            cp = ord(cp)
        for lo, hi in self.r:
            if lo <= cp <= hi:
                return True
            if cp < lo:
                return False
        return False

    def issubset(self, o):
        return not (self - o)

    def size(self):
        return sum(hi - lo + 1 for lo, hi in self.r)

    def chars(self, limit=64):
        out = []
        for lo, hi in self.r:
            for c in range(lo, hi + 1):
                out.append(chr(c))
                if len(out) >= limit:
                    return out
        return out

    def first(self):
        return self.r[0][0] if self.r else None

    def __repr__(self):
        def c(x):
            ch = chr(x)
            if ch.isalnum() and x < 128:
                return ch
            if x < 0x10000:
                return '\\u%04x' % x if x > 0xFF else '\\x%02x' % x
            return '\\U%08x' % x

        if len(self.r) > 12:
            neg = self.negate()
            if len(neg.r) <= 12:
                return '[^' + repr(neg)[1:]
            return '[%d ranges %s..%s]' % (len(self.r), c(self.r[0][0]), c(self.r[-1][1]))
        return '[' + ''.join(c(lo) if lo == hi else f'{c(lo)}-{c(hi)}' for lo, hi in self.r) + ']'


ALL = CS([(0, MAXCP)])
EMPTY = CS()


def cs_of(s):
    return CS([(ord(c), ord(c)) for c in s])


@lru_cache(None)
def category(cat):
    """Exact code-point set of an sre category under str/UNICODE semantics."""
    name = str(cat)
    neg = 'NOT_' in name
    base = name.replace('NOT_', '')
    if 'DIGIT' in base:
        pred = str.isdigit  # sre uses Py_UNICODE_ISDECIMAL
        pred = lambda ch: ch.isdecimal()  # noqa: E731
    elif 'SPACE' in base:
        pred = str.isspace
    elif 'WORD' in base:
        pred = lambda ch: ch.isalnum() or ch == '_'  # noqa: E731
    elif 'LINEBREAK' in base:
        pred = lambda ch: ch == '\n'  # noqa: E731
    else:
        raise AnalysisError(f'unsupported regex category {name}')
    ranges = []
    start = None
    for cp in range(MAXCP + 1):
        if pred(chr(cp)):
            if start is None:
                start = cp
        elif start is not None:
            ranges.append((start, cp - 1))
            start = None
    if start is not None:
        ranges.append((start, MAXCP))
    s = CS(ranges)
    return s.negate() if neg else s


_CF = {}


def _casefold(cs):
    """IGNORECASE closure (simple one-to-one case mapping, as sre applies it)."""
    r = _CF.get(cs)
    if r is None:
        r = _CF[cs] = _casefold1(cs)
    return r


def _casefold1(cs):
    extra = []
    for lo, hi in cs.r:
        if hi - lo > 2000:
            # huge ranges (negated classes, nonascii): already closed in practice
            continue
        for cp in range(lo, hi + 1):
            ch = chr(cp)
            for v in (ch.lower(), ch.upper()):
                if len(v) == 1 and v != ch:
                    extra.append((ord(v), ord(v)))
    # the few extra sre equivalences (K/Kelvin sign, s/long s ...) matter only
    # above ASCII; they are added for completeness
    for a, b in ((0x4B, 0x212A), (0x6B, 0x212A), (0x53, 0x17F), (0x73, 0x17F), (0xC5, 0x212B), (0xE5, 0x212B)):
        if a in cs:
            extra.append((b, b))
        if b in cs:
            extra.append((a, a))
    return cs | CS(extra) if extra else cs


# ---------------------------------------------------------------------------
# own regex AST
#   ('cs', CS) ('cat', [n...]) ('alt', [n...]) ('rep', n, lo, hi|None) ('eps',)
#   ('at', kind) ('look', negative, n)


def parse(pattern, flags=0):
    try:
        tree = sre_parse.parse(pattern, flags)
    except re.error as e:
        raise AnalysisError(f'pattern does not compile: {pattern[:80]!r}: {e}')
    flags = tree.state.flags
    return _conv_seq(tree, flags)


def _conv_seq(sub, flags):
    items = [_conv(op, av, flags) for op, av in sub]
    items = [i for i in items if i != ('eps',)]
    if not items:
        return ('eps',)
    if len(items) == 1:
        return items[0]
    return ('cat', items)


def _conv(op, av, flags):
    I = bool(flags & re.I)
    name = str(op)
    if name == 'LITERAL':
        cs = CS([(av, av)])
        return ('cs', _casefold(cs) if I else cs)
    if name == 'NOT_LITERAL':
        cs = CS([(av, av)])
        if I:
            cs = _casefold(cs)
        return ('cs', cs.negate())
    if name == 'ANY':
        return ('cs', ALL if flags & re.S else CS([(10, 10)]).negate())
    if name == 'IN':
        neg = False
        cs = EMPTY
        for o, a in av:
            on = str(o)
            if on == 'NEGATE':
                neg = True
            elif on == 'LITERAL':
                cs = cs | CS([(a, a)])
            elif on == 'RANGE':
                cs = cs | CS([a])
            elif on == 'CATEGORY':
                cs = cs | category(a)
            else:
                raise AnalysisError(f'unsupported set item {on}')
        if I:
            cs = _casefold(cs)
        return ('cs', cs.negate() if neg else cs)
    if name == 'BRANCH':
        return ('alt', [_conv_seq(p, flags) for p in av[1]])
    if name == 'SUBPATTERN':
        group, add, dele, p = av
        return _conv_seq(p, (flags | add) & ~dele)
    if name in ('MAX_REPEAT', 'MIN_REPEAT', 'POSSESSIVE_REPEAT'):
        lo, hi, p = av
        if hi == sre_c.MAXREPEAT:
            hi = None
        return ('rep', _conv_seq(p, flags), lo, hi)
    if name == 'AT':
        return ('at', str(av))
    if name in ('ASSERT', 'ASSERT_NOT'):
        direction, p = av
        return ('look', name == 'ASSERT_NOT', direction, _conv_seq(p, flags))
    if name == 'ATOMIC_GROUP':
        return _conv_seq(av, flags)
    if name == 'CATEGORY':
        return ('cs', category(av))
    raise AnalysisError(f'unsupported regex construct {name}')


def compiles(pattern, flags=0):
    """Does the pattern parse (syntax only)?  Returns (ok, message)."""
    try:
        sre_parse.parse(pattern, flags)
        return True, ''
    except re.error as e:
        return False, str(e)


def strip_anchors(n):
    """Remove a leading ^ / trailing $ (the profile patterns are ^(?:...)$)."""
    begin = end = False
    if n[0] == 'cat':
        items = list(n[1])
        while items and items[0][0] == 'at' and 'BEGINNING' in items[0][1]:
            items.pop(0)
            begin = True
        while items and items[-1][0] == 'at' and 'END' in items[-1][1]:
            items.pop()
            end = True
        n = ('cat', items) if len(items) != 1 else items[0]
        if not items:
            n = ('eps',)
    return n, begin, end


def has_node(n, kinds):
    if n[0] in kinds:
        return True
    if n[0] == 'cat' or n[0] == 'alt':
        return any(has_node(x, kinds) for x in n[1])
    if n[0] == 'rep':
        return has_node(n[1], kinds)
    if n[0] == 'look':
        return True if 'look' in kinds else has_node(n[3], kinds)
    return False


# ---------------------------------------------------------------------------
# Glushkov position automaton

REP_EXPAND_LIMIT = 40


class NFA:
    """Position automaton. State 0..n-1 = positions; start is implicit."""

    def __init__(self, node):
        self.cs = []  # position -> CS
        self.follow = []  # position -> set of positions
        self.label = []
        self.relaxed = False
        nullable, first, last = self._build(node)
        self.nullable = nullable
        self.first = frozenset(first)
        self.last = frozenset(last)
        self.n = len(self.cs)
        self._cells = None

    def _new(self, cs):
        self.cs.append(cs)
        self.follow.append(set())
        return len(self.cs) - 1

    def _build(self, n):
        k = n[0]
        if k == 'eps' or k == 'at':
            # anchors inside a pattern are treated as epsilon (only used after
            # strip_anchors(); word boundaries do not occur in this code base)
            return True, set(), set()
        if k == 'look':
            # Relaxation: the assertion is dropped, so the automaton accepts a
            # superset and has a superset of runs.  Sound for "no exponential
            # ambiguity" verdicts only; callers must not report findings made
            # on a relaxed automaton (self.relaxed is set).
            self.relaxed = True
            return True, set(), set()
        if k == 'cs':
            p = self._new(n[1])
            return False, {p}, {p}
        if k == 'cat':
            nullable, first, last = True, set(), set()
            for x in n[1]:
                xn, xf, xl = self._build(x)
                for p in last:
                    self.follow[p] |= xf
                if nullable:
                    first |= xf
                last = (last | xl) if xn else set(xl)
                nullable = nullable and xn
            return nullable, first, last
        if k == 'alt':
            nullable, first, last = False, set(), set()
            for x in n[1]:
                xn, xf, xl = self._build(x)
                nullable |= xn
                first |= xf
                last |= xl
            return nullable, first, last
        if k == 'rep':
            _, body, lo, hi = n
            if hi is None:
                if lo > REP_EXPAND_LIMIT:
                    raise AnalysisError(f'repeat count {lo} too large to expand')
                # r{lo,} = r^lo r*   (r* when lo == 0; r+ == r r*)
                parts = [body] * lo + [('star', body)]
            else:
                if hi > REP_EXPAND_LIMIT:
                    raise AnalysisError(f'repeat count {hi} too large to expand')
                parts = [body] * lo + [('opt', body)] * (hi - lo)
            if not parts:
                return True, set(), set()
            return self._build(('cat', parts) if len(parts) > 1 else parts[0])
        if k == 'star':
            xn, xf, xl = self._build(n[1])
            for p in xl:
                self.follow[p] |= xf
            return True, xf, xl
        if k == 'opt':
            xn, xf, xl = self._build(n[1])
            return True, xf, xl
        raise AnalysisError(f'internal: node kind {k}')

    # -- alphabet partition ------------------------------------------------
    def cells(self):
        """Representative code point of every cell of the coarsest partition
        that all position sets respect."""
        if self._cells is None:
            self._cells = partition(self.cs)
        return self._cells

    def step(self, states, cp):
        out = set()
        for p in states:
            for q in self.follow[p]:
                if cp in self.cs[q]:
                    out.add(q)
        return frozenset(out)

    def start_step(self, cp):
        return frozenset(q for q in self.first if cp in self.cs[q])

    def first_chars(self):
        cs = EMPTY
        for p in self.first:
            cs = cs | self.cs[p]
        return cs


def partition(sets):
    bounds = {0, MAXCP + 1}
    for cs in set(sets):
        for lo, hi in cs.r:
            bounds.add(lo)
            bounds.add(hi + 1)
    b = sorted(bounds)
    # merge cells with identical membership signature
    sig = {}
    uniq = list(set(sets))
    for i in range(len(b) - 1):
        lo = b[i]
        key = tuple(lo in cs for cs in uniq)
        if not any(key):
            key = None
        sig.setdefault(key, lo)
    return sorted(sig.values())


def compile_nfa(pattern, flags=0, anchored=False):
    node = parse(pattern, flags)
    begin = end = False
    if anchored:
        node, begin, end = strip_anchors(node)
    nfa = NFA(node)
    nfa.pattern = pattern
    nfa.anchored_end = end
    return nfa


# ---------------------------------------------------------------------------
# DFA helpers (subset construction on cells)


def dfa_explore(nfa, limit=20000):
    """Full subset construction. Returns (states, trans, accepting)."""
    cells = nfa.cells()
    START = 'S'
    states = {START: 0}
    order = [START]
    trans = {}
    acc = set()
    if nfa.nullable:
        acc.add(0)
    i = 0
    while i < len(order):
        s = order[i]
        si = states[s]
        for c in cells:
            t = nfa.start_step(c) if s == START else nfa.step(s, c)
            if not t:
                continue
            if t not in states:
                states[t] = len(order)
                order.append(t)
                if t & nfa.last:
                    acc.add(states[t])
                if len(order) > limit:
                    raise AnalysisError('subset construction exceeds the state limit')
            trans[(si, c)] = states[t]
        i += 1
    return order, trans, acc


def finite_language(nfa, limit=5000):
    """All strings of L(nfa) over cell representatives if L is finite and every
    position set is a small explicit set; None if infinite."""
    # cycle detection on positions reachable
    for p in range(nfa.n):
        pass
    # DFS for cycles in follow graph restricted to useful positions
    color = {}

    def cyc(p):
        color[p] = 1
        for q in nfa.follow[p]:
            if color.get(q) == 1:
                return True
            if q not in color and cyc(q):
                return True
        color[p] = 2
        return False

    old = sys.getrecursionlimit()
    sys.setrecursionlimit(max(old, 10000))
    try:
        for p in nfa.first:
            if p not in color and cyc(p):
                return None
    finally:
        sys.setrecursionlimit(old)
    out = set()
    if nfa.nullable:
        out.add('')

    def rec(p, prefix):
        if len(out) > limit:
            raise AnalysisError('finite language too large to enumerate')
        if nfa.cs[p].size() > 12:
            raise AnalysisError('finite language over a wide character class')
        for ch in nfa.cs[p].chars():
            w = prefix + ch
            if p in nfa.last:
                out.add(w)
            for q in nfa.follow[p]:
                rec(q, w)

    for p in nfa.first:
        rec(p, '')
    return out


def is_finite(nfa):
    try:
        color = {}

        def cyc(p):
            color[p] = 1
            for q in nfa.follow[p]:
                if color.get(q) == 1:
                    return True
                if q not in color and cyc(q):
                    return True
            color[p] = 2
            return False

        old = sys.getrecursionlimit()
        sys.setrecursionlimit(max(old, 10000))
        try:
            for p in nfa.first:
                if p not in color and cyc(p):
                    return False
        finally:
            sys.setrecursionlimit(old)
        return True
    except RecursionError:  # pragma: no cover
        raise AnalysisError('pattern too deep')


def _acc(nfa, s):
    if s is None:
        return False
    return nfa.nullable if s == 'S' else bool(s & nfa.last)


def equivalent(nfa_a, nfa_b, limit=20000):
    """Language equality of two position automata (fullmatch semantics).
    Returns (True, None) or (False, witness string)."""
    cells = partition(list(nfa_a.cs) + list(nfa_b.cs))

    def st(nfa, s, c):
        if s is None:
            return None
        t = nfa.start_step(c) if s == 'S' else nfa.step(s, c)
        return t or None

    start = ('S', 'S')
    seen = {start: ''}
    todo = [start]
    while todo:
        a, b = todo.pop()
        w = seen[(a, b)]
        if _acc(nfa_a, a) != _acc(nfa_b, b):
            return False, w
        for c in cells:
            key = (st(nfa_a, a, c), st(nfa_b, b, c))
            if key == (None, None):
                continue
            if key not in seen:
                seen[key] = w + chr(c)
                if len(seen) > limit:
                    raise AnalysisError('product construction exceeds the state limit')
                todo.append(key)
    return True, None


def accepts(nfa, s):
    """Decide membership of a *constant of the checker* in L(nfa) (fullmatch).
    Used to compare an oracle keyword list with an extracted grammar."""
    cur = 'S'
    for ch in s:
        cp = ord(ch)
        cur = nfa.start_step(cp) if cur == 'S' else nfa.step(cur, cp)
        if not cur:
            return False
    return nfa.nullable if cur == 'S' else bool(cur & nfa.last)


# ---------------------------------------------------------------------------
# harmful exponential ambiguity


def eda(nfa, prefix_accepts=True, subset_limit=6000, triple_limit=600000):
    """Exponential degree of ambiguity that the backtracking matcher cannot
    escape from.

    prefix_accepts=True  : ``match()`` semantics without ``$`` - a run that
        reaches a final position ends the search, so only the region in which
        no prefix has been accepted yet is examined.
    prefix_accepts=False : the pattern ends in ``$`` - acceptance needs the end
        of input, so the whole automaton is examined, and a finding additionally
        needs a continuation that kills every run.

    Returns a list of findings: dict(div=[(label_p, label_q)...], prefix, pump, pair).
    """
    if nfa.nullable and prefix_accepts:
        return []
    cells = nfa.cells()
    last = nfa.last
    # lazily determinise inside the region
    subsets = {}
    order = []
    dtrans = {}
    back = {}

    def add(U, frm, c):
        if U not in subsets:
            subsets[U] = len(order)
            order.append(U)
            back[U] = (frm, c)
            if len(order) > subset_limit:
                raise AnalysisError('EDA analysis: subset limit exceeded')

    for c in cells:
        U = nfa.start_step(c)
        if U and not (prefix_accepts and U & last):
            add(U, None, c)
            dtrans[('S', c)] = U
    i = 0
    while i < len(order):
        U = order[i]
        for c in cells:
            V = nfa.step(U, c)
            if V and not (prefix_accepts and V & last):
                add(V, U, c)
                dtrans[(U, c)] = V
        i += 1

    # triple graph, nodes (U, p, q) with p <= q
    succ = {}
    todo = []
    for U in order:
        for p in U:
            t = (U, p, p)
            succ[t] = None
            todo.append(t)
    # per position: follow grouped by cell
    fol_by_cell = []
    for p in range(nfa.n):
        d = {}
        for q in nfa.follow[p]:
            for c in cells:
                if c in nfa.cs[q]:
                    d.setdefault(c, []).append(q)
        fol_by_cell.append(d)
    while todo:
        t = todo.pop()
        if succ.get(t) is not None:
            continue
        U, p, q = t
        outs = []
        dp, dq = fol_by_cell[p], fol_by_cell[q]
        for c in dp:
            if c not in dq:
                continue
            V = dtrans.get((U, c))
            if V is None:
                continue
            for x in dp[c]:
                for y in dq[c]:
                    a, b = (x, y) if x <= y else (y, x)
                    nt = (V, a, b)
                    outs.append((c, nt))
                    if nt not in succ:
                        succ[nt] = None
                        todo.append(nt)
                        if len(succ) > triple_limit:
                            raise AnalysisError('EDA analysis: product limit exceeded')
        succ[t] = outs

    # Tarjan SCC, iterative
    index = {}
    low = {}
    onstack = set()
    stack = []
    comp = {}
    ncomp = 0
    counter = 0
    for root in list(succ):
        if root in index:
            continue
        work = [(root, 0)]
        index[root] = low[root] = counter
        counter += 1
        stack.append(root)
        onstack.add(root)
        while work:
            v, pi = work[-1]
            outs = succ[v]
            if pi < len(outs):
                work[-1] = (v, pi + 1)
                w = outs[pi][1]
                if w not in index:
                    index[w] = low[w] = counter
                    counter += 1
                    stack.append(w)
                    onstack.add(w)
                    work.append((w, 0))
                elif w in onstack:
                    low[v] = min(low[v], index[w])
            else:
                work.pop()
                if work:
                    u = work[-1][0]
                    low[u] = min(low[u], low[v])
                if low[v] == index[v]:
                    while True:
                        w = stack.pop()
                        onstack.discard(w)
                        comp[w] = ncomp
                        if w == v:
                            break
                    ncomp += 1

    members = {}
    for t, c in comp.items():
        members.setdefault(c, []).append(t)
    findings = []
    for c, ts in members.items():
        if len(ts) == 1 and not any(nt == ts[0] for _, nt in succ[ts[0]]):
            continue
        diag = [t for t in ts if t[1] == t[2]]
        off = [t for t in ts if t[1] != t[2]]
        if not diag or not off:
            continue
        if not prefix_accepts:
            # need a continuation that makes every run fail
            U = diag[0][0]
            if not _can_fail(nfa, U, cells):
                continue
        divs = set()
        for t in diag:
            for cell, nt in succ[t]:
                if nt[1] != nt[2] and comp.get(nt) == c:
                    divs.add(tuple(sorted((repr(nfa.cs[nt[1]]), repr(nfa.cs[nt[2]])))) + (chr(cell),))
        # witness prefix to the subset of the first diagonal node
        U = diag[0][0]
        pref = []
        cur = U
        while cur is not None:
            frm, cell = back[cur]
            pref.append(chr(cell))
            cur = frm
        findings.append(
            {
                'divergences': sorted(divs),
                'prefix': ''.join(reversed(pref)),
                'positions': len({t[1] for t in ts} | {t[2] for t in ts}),
            }
        )
    return findings


def _can_fail(nfa, U, cells, limit=3000):
    seen = {U}
    todo = [U]
    while todo:
        V = todo.pop()
        if not (V & nfa.last):
            return True
        for c in cells:
            W = nfa.step(V, c)
            if not W:
                return True
            if W not in seen:
                seen.add(W)
                if len(seen) > limit:
                    return False  # cannot show it: do not report
                todo.append(W)
    return False


# ---------------------------------------------------------------------------
# macro expansion as the repository does it (re-implemented, not imported)


def expand_macros(value, macros, macro_re_search, macro_re_sub, guard=200):
    """Expand ``{name}`` macros the way tokenize2/profiles do.  The two regexes
    are read from the source so that a change there is seen."""
    s = re.compile(macro_re_search)
    r = re.compile(macro_re_sub)
    n = 0
    while s.search(value):
        def rep(m):
            name = m.groupdict()['macro']
            if name not in macros:
                raise KeyError(name)
            return '(?:%s)' % macros[name]

        value = r.sub(rep, value)
        n += 1
        if n > guard:
            raise AnalysisError('macro expansion does not terminate (cyclic macro)')
    return value
