"""E2 - statement-level control-flow graphs for the statement kinds this
repository uses, with exceptional edges for statements a rule declares
*may-raise*.  ``finally`` bodies are copied per way of entering them (normal,
exception, return, break, continue) so that no path enters one way and leaves
another.
"""
from __future__ import annotations

import ast

from .core import AnalysisError, text

ENTRY, EXIT_RET, EXIT_EXC = 0, 1, 2


class Node:
    __slots__ = ('id', 'stmt', 'kind', 'copy')

    def __init__(self, id, stmt, kind, copy=''):
        self.id = id
        self.stmt = stmt  # ast node (statement, or test/iter expression owner)
        self.kind = kind  # entry exit_ret exit_exc stmt if while for with return raise handler
        self.copy = copy  # which finally-copy this node lives in

    def __repr__(self):
        return f'<{self.id}:{self.kind}:{text(self.stmt)[:50]}>'


class _Loop:
    def __init__(self, head):
        self.head = head
        self.brk = []


class _Try:
    def __init__(self, node):
        self.node = node
        self.phase = 'body'
        self.has_handlers = bool(node.handlers)
        self.has_finally = bool(node.finalbody)
        self.exc = []
        self.pending = {'exc': [], 'ret': [], 'brk': [], 'cont': []}


def _catch_all(handler):
    t = handler.type
    if t is None:
        return True
    if isinstance(t, ast.Name) and t.id in ('Exception', 'BaseException'):
        return True
    return False


class CFG:
    def __init__(self, fn, may_raise=None, catches=None):
        """``may_raise(stmt_or_expr_owner) -> bool`` decides which nodes get an
        exceptional successor.  ``catches(handler) -> True|False|None``: whether
        an exception handler certainly catches / certainly does not catch the
        exceptions the rule is about (None = may or may not)."""
        self.fn = fn
        self.nodes = [Node(0, None, 'entry'), Node(1, None, 'exit_ret'), Node(2, None, 'exit_exc')]
        self.succ = {0: [], 1: [], 2: []}
        self.may_raise = may_raise or (lambda n: False)
        self.catches = catches or (lambda h: True if _catch_all(h) else None)
        self.frames = []
        self._copy = ''
        body = fn.body if not isinstance(fn, ast.Lambda) else [ast.Return(value=fn.body)]
        if isinstance(fn, ast.Lambda):
            ast.copy_location(body[0], fn.body)
        out = self._seq(body, [(ENTRY, 'next')])
        for e in out:
            self._edge(e, EXIT_RET, fall=True)
        self.pred = {n.id: [] for n in self.nodes}
        for a, lst in self.succ.items():
            for b, lab in lst:
                self.pred[b].append((a, lab))

    # -- construction ---------------------------------------------------------
    def _new(self, stmt, kind):
        n = Node(len(self.nodes), stmt, kind, self._copy)
        self.nodes.append(n)
        self.succ[n.id] = []
        return n.id

    def _edge(self, e, to, fall=False):
        frm, lab = e
        if fall and to == EXIT_RET:
            lab = lab + '|falloff'
        self.succ[frm].append((to, lab))

    def _connect(self, preds, to):
        for e in preds:
            self._edge(e, to)

    def _route(self, kind, edges, depth=None):
        """Send dangling ``edges`` outward as return / exception / break / continue."""
        if not edges:
            return
        if depth is None:
            depth = len(self.frames)
        for i in range(depth - 1, -1, -1):
            f = self.frames[i]
            if isinstance(f, _Try):
                if kind == 'exc' and f.phase == 'body' and f.has_handlers:
                    f.exc.extend(edges)
                    return
                if f.has_finally and f.phase in ('body', 'handler', 'else'):
                    f.pending[kind].extend(edges)
                    return
            else:
                if kind == 'brk':
                    f.brk.extend(edges)
                    return
                if kind == 'cont':
                    self._connect(edges, f.head)
                    return
        if kind == 'ret':
            self._connect(edges, EXIT_RET)
        elif kind == 'exc':
            self._connect(edges, EXIT_EXC)
        else:
            raise AnalysisError(f'{kind} outside a loop')

    def _exc_from(self, nid):
        self._route('exc', [(nid, 'exc')])

    def _seq(self, stmts, preds):
        for st in stmts:
            if not preds:
                # unreachable code: still build it (with no predecessor) so that
                # rules see its statements; but keep it disconnected
                pass
            preds = self._stmt(st, preds)
        return preds

    def _stmt(self, st, preds):  # noqa: C901
        if isinstance(st, (ast.FunctionDef, ast.AsyncFunctionDef, ast.ClassDef)):
            n = self._new(st, 'def')
            self._connect(preds, n)
            return [(n, 'next')]
        if isinstance(st, ast.If):
            n = self._new(st, 'if')
            self._connect(preds, n)
            if self.may_raise(st.test):
                self._exc_from(n)
            t = self._seq(st.body, [(n, 'true')])
            if st.orelse:
                f = self._seq(st.orelse, [(n, 'false')])
            else:
                f = [(n, 'false')]
            return t + f
        if isinstance(st, (ast.While, ast.For)):
            kind = 'while' if isinstance(st, ast.While) else 'for'
            n = self._new(st, kind)
            self._connect(preds, n)
            if self.may_raise(st.test if kind == 'while' else st.iter):
                self._exc_from(n)
            loop = _Loop(n)
            self.frames.append(loop)
            b = self._seq(st.body, [(n, 'true')])
            self._connect(b, n)
            self.frames.pop()
            always = kind == 'while' and isinstance(st.test, ast.Constant) and bool(st.test.value)
            out = [] if always else [(n, 'false')]
            if st.orelse:
                out = self._seq(st.orelse, out)
            return out + loop.brk
        if isinstance(st, ast.Try):
            return self._try(st, preds)
        if isinstance(st, ast.With):
            n = self._new(st, 'with')
            self._connect(preds, n)
            if any(self.may_raise(i.context_expr) for i in st.items):
                self._exc_from(n)
            return self._seq(st.body, [(n, 'next')])
        if isinstance(st, ast.Return):
            n = self._new(st, 'return')
            self._connect(preds, n)
            if st.value is not None and self.may_raise(st.value):
                self._exc_from(n)
            self._route('ret', [(n, 'return')])
            return []
        if isinstance(st, ast.Raise):
            n = self._new(st, 'raise')
            self._connect(preds, n)
            self._route('exc', [(n, 'raise')])
            return []
        if isinstance(st, ast.Break):
            n = self._new(st, 'break')
            self._connect(preds, n)
            self._route('brk', [(n, 'break')])
            return []
        if isinstance(st, ast.Continue):
            n = self._new(st, 'continue')
            self._connect(preds, n)
            self._route('cont', [(n, 'continue')])
            return []
        if isinstance(
            st,
            (
                ast.Expr,
                ast.Assign,
                ast.AugAssign,
                ast.AnnAssign,
                ast.Delete,
                ast.Pass,
                ast.Assert,
                ast.Import,
                ast.ImportFrom,
                ast.Global,
                ast.Nonlocal,
            ),
        ):
            n = self._new(st, 'stmt')
            self._connect(preds, n)
            if self.may_raise(st):
                self._exc_from(n)
            return [(n, 'next')]
        raise AnalysisError(f'unsupported statement kind {type(st).__name__}: {text(st)}')

    def _try(self, st, preds):
        f = _Try(st)
        depth = len(self.frames)
        self.frames.append(f)
        normal = self._seq(st.body, preds)
        # handlers
        f.phase = 'handler'
        uncaught = []
        caught_all = False
        raised = list(f.exc)
        hnormal = []
        for h in st.handlers:
            if caught_all:
                break
            c = self.catches(h)
            if c is False:
                continue
            hn = self._new(h, 'handler')
            self._connect(raised, hn)
            hnormal += self._seq(h.body, [(hn, 'next')])
            if c is True:
                caught_all = True
        if st.handlers and not caught_all:
            uncaught = raised
        # else
        f.phase = 'else'
        if st.orelse:
            normal = self._seq(st.orelse, normal)
        normal = normal + hnormal
        # uncaught exceptions of the body go outward (through finally, if any)
        if uncaught:
            if f.has_finally:
                f.pending['exc'].extend(uncaught)
            else:
                self.frames.pop()
                self._route('exc', uncaught, depth)
                self.frames.append(f)
        f.phase = 'final'
        if f.has_finally:
            saved = self._copy
            for kind in ('exc', 'ret', 'brk', 'cont'):
                edges = f.pending[kind]
                if edges:
                    self._copy = f'{saved}/finally@{st.lineno}:{kind}'
                    out = self._seq(st.finalbody, edges)
                    self._route(kind, out, depth)
            self._copy = f'{saved}/finally@{st.lineno}:normal'
            normal = self._seq(st.finalbody, normal)
            self._copy = saved
        self.frames.pop()
        return normal

    # -- queries --------------------------------------------------------------
    def stmt_nodes(self, pred=None):
        for n in self.nodes:
            if n.stmt is not None and (pred is None or pred(n)):
                yield n

    def reachable(self, start_ids, avoid=None, labels=None):
        """Nodes reachable from ``start_ids`` (exclusive of the starts unless on a
        cycle) without entering a node for which ``avoid(node)`` holds.  Returns
        dict node id -> predecessor id (for path reconstruction)."""
        seen = {}
        todo = []
        for s in start_ids:
            for t, lab in self.succ[s]:
                if labels and not labels(s, t, lab):
                    continue
                if t not in seen and not (avoid and avoid(self.nodes[t])):
                    seen[t] = s
                    todo.append(t)
        while todo:
            n = todo.pop()
            for t, lab in self.succ[n]:
                if labels and not labels(n, t, lab):
                    continue
                if t not in seen and not (avoid and avoid(self.nodes[t])):
                    seen[t] = n
                    todo.append(t)
        return seen

    def path(self, seen, start_ids, end):
        p = [end]
        cur = end
        guard = 0
        while cur not in start_ids and cur in seen and guard < 10000:
            cur = seen[cur]
            p.append(cur)
            guard += 1
        return [self.describe(i) for i in reversed(p)]

    def describe(self, i):
        n = self.nodes[i]
        if n.stmt is None:
            return n.kind
        s = n.stmt
        if n.kind == 'if':
            return 'if ' + text(s.test)
        if n.kind == 'while':
            return 'while ' + text(s.test)
        if n.kind == 'for':
            return f'for {text(s.target)} in {text(s.iter)}'
        if n.kind == 'with':
            return 'with ' + ', '.join(text(i.context_expr) for i in s.items)
        if n.kind == 'handler':
            return 'except ' + (text(s.type) if s.type else '')
        if n.kind == 'def':
            return f'def {s.name}'
        return text(s)

    def dominators(self):
        """dom[n] = set of node ids that dominate n (on paths from ENTRY)."""
        ids = [n.id for n in self.nodes]
        reach = set(self.reachable([ENTRY])) | {ENTRY}
        dom = {i: set(reach) for i in reach}
        dom[ENTRY] = {ENTRY}
        changed = True
        while changed:
            changed = False
            for i in ids:
                if i == ENTRY or i not in reach:
                    continue
                ps = [p for p, _ in self.pred[i] if p in reach]
                if not ps:
                    continue
                new = set.intersection(*(dom[p] for p in ps)) | {i}
                if new != dom[i]:
                    dom[i] = new
                    changed = True
        return dom

    def all_paths_pass(self, start_ids, through, targets=(EXIT_RET,), labels=None):
        """Must-pass-through: is every path from ``start_ids`` to a node in
        ``targets`` forced through a node satisfying ``through``?  Returns
        (True, None) or (False, offending path)."""
        seen = self.reachable(start_ids, avoid=through, labels=labels)
        for t in targets:
            if t in seen:
                return False, self.path(seen, set(start_ids), t)
        return True, None


def node_exprs(node):
    """The expressions evaluated *at* a CFG node (not those of nested bodies)."""
    s = node.stmt
    if s is None:
        return []
    k = node.kind
    if k == 'if' or k == 'while':
        return [s.test]
    if k == 'for':
        return [s.iter, s.target]
    if k == 'with':
        return [i.context_expr for i in s.items] + [i.optional_vars for i in s.items if i.optional_vars]
    if k == 'handler':
        return [s.type] if s.type else []
    if k == 'def':
        return list(s.decorator_list) if hasattr(s, 'decorator_list') else []
    return [s]


def calls_at(node):
    out = []
    for e in node_exprs(node):
        out.extend(n for n in walk_expr(e) if isinstance(n, ast.Call))
    return out


def walk_expr(e):
    """Walk an expression/statement without entering lambda or def bodies."""
    stack = [e]
    while stack:
        n = stack.pop()
        yield n
        for c in ast.iter_child_nodes(n):
            if isinstance(c, (ast.Lambda, ast.FunctionDef, ast.AsyncFunctionDef, ast.ClassDef)):
                continue
            stack.append(c)
